"""clang JSON AST (a fixed C++ subset) -> Gallina.

Integer code is translated exactly (`Z`, explicit `mod 2^w` for unsigned types);
conditions of dependent/floating type become named oracles
(`orc "<source text>" [<integer free variables>]`).  Anything outside the subset
raises TranslationError: the tie is then reported as broken, never guessed.

Soundness conditions checked syntactically here (part of the trusted base):
 * a `for` loop must have the form `for (T i = a; i < b | i <= b; i++ | ++i)`
   with `b` not assigned in the body and `i` only incremented in the body, so the
   fuel `b - a (+1)` always suffices;
 * signed arithmetic is left unwrapped: theorems about signed code carry range
   hypotheses under which no overflow occurs (all values are bounded by small
   multiples of the matrix size).
"""
import re
from clangast import TranslationError, kids, body, params  # noqa (local module clangast.py)

WIDTH = {'long': 64, 'unsigned long': 64, 'int': 32, 'unsigned int': 32, 'bool': 1,
         'long long': 64, 'unsigned long long': 64, 'short': 16, 'unsigned short': 16,
         'char': 8, 'unsigned char': 8}


def qual(n):
    t = n.get('type') or {}
    return t.get('desugaredQualType') or t.get('qualType') or ''


def canon(t):
    t = t.replace('const ', '').replace('volatile ', '').replace('&', '').strip()
    t = re.sub(r'\s+', ' ', t)
    if t in ('std::ptrdiff_t', 'ptrdiff_t', 'Eigen::Index', 'Index') or t.endswith('::Index'):
        return 'long'
    if t in ('std::size_t', 'size_t'):
        return 'unsigned long'
    return t


def is_unsigned(t):
    return canon(t).startswith('unsigned')


def is_int_type(t):
    return canon(t) in WIDTH


def is_vec_int(t):
    c = canon(t)
    return ('vector<long' in c or 'vector<Eigen::Index' in c or 'vector<Index' in c or 'vector<int' in c
            or 'vector<std::ptrdiff_t' in c or c.endswith('IndexArray'))


def is_dependent(n):
    q = (n.get('type') or {}).get('qualType', '')
    return 'dependent type' in q


def coq_string(s):
    s = re.sub(r'\s+', ' ', s.strip())
    return '"' + s.replace('"', '""') + '"%string'


def wrap(t, e):
    t = canon(t)
    if t.startswith('unsigned') and t in WIDTH:
        suffix = ' mod %d)' % 2 ** WIDTH[t]
        if e.startswith('((') and e.endswith(suffix) and balanced(e[1:-len(suffix)]):
            return e
        return '((%s) mod %d)' % (e, 2 ** WIDTH[t])
    return e


def balanced(s):
    d = 0
    for i, ch in enumerate(s):
        if ch == '(':
            d += 1
        elif ch == ')':
            d -= 1
            if d == 0 and i != len(s) - 1:
                return False
    return d == 0 and s.startswith('(')


def strip(n):
    """Skip wrappers that carry no semantics."""
    while (n['kind'] in ('ParenExpr', 'ExprWithCleanups', 'MaterializeTemporaryExpr', 'CXXBindTemporaryExpr',
                         'ConstantExpr') and kids(n)) or (n['kind'] in ('ParenListExpr', 'InitListExpr') and len(kids(n)) == 1):
        n = kids(n)[0]
    return n


class Fn:
    """Translate one function definition."""

    def __init__(self, A, fn, coq_name, member_params=(), extra_params=(), skip_locals=(), enums=None):
        self.A = A
        self.fn = fn
        self.name = coq_name
        self.member_params = list(member_params)   # members read as parameters (name -> Z)
        self.extra_params = list(extra_params)
        self.loops = []          # emitted Fixpoints
        self.nloop = 0
        self.ver = {}
        self.types = {}          # var -> 'Z' | 'list Z' | 'bool' | 'opaque'
        self.uses_orc = False
        self.has_throw = self._contains(fn, 'CXXThrowExpr')
        self.enums = enums or {}
        self.oracles = []        # source texts
        self.skip_locals = set(skip_locals)
        self.result_vars = []
        self.calls = {}
        self.dep_calls = {}      # normalised source text of a dependent call -> integer variable
        self.smap = {}           # normalised source text of a scalar sub-expression -> scalar variable
        self.auto_params = []
        self._declared = set()
        self.world = False       # opaque calls become calls of the world W (effects threaded through `w`)
        self.world_calls = []    # names of world calls, in source order
        self.loop_exit = None    # closure producing the exit term of the innermost loop (for `break`)
        self.loop_continue = None
        self.return_is_break = False   # void function whose last statement is the loop: `return;` inside it == break
        self.byref_calls = {}    # callee text -> (coq function, [indices of integer input args], result variable)
        self.ret_scalar = False
        self.literals = []       # numeric literals met, in source order

    # ----------------------------------------------------------------- helpers
    @staticmethod
    def _contains(n, kind):
        if n.get('kind') == kind:
            return True
        return any(Fn._contains(c, kind) for c in kids(n))

    def cur(self, name):
        v = self.ver.get(name, 0)
        return name if v == 0 else '%s_%d' % (name, v)

    def fresh(self, name):
        self.ver[name] = self.ver.get(name, 0) + 1
        return self.cur(name)

    def vtype(self, n):
        t = qual(n)
        if is_int_type(t):
            return 'bool' if canon(t) == 'bool' else 'Z'
        if is_vec_int(t):
            return 'list Z'
        if is_enum(t):
            return 'Z'
        return 'opaque'

    # ------------------------------------------------------------- expressions
    def member_name(self, n):
        """`m_x` / `this->m_x`, also when the member lives in a dependent base (UnresolvedMemberExpr)"""
        if n['kind'] == 'MemberExpr' and kids(n) and kids(n)[0]['kind'] == 'CXXThisExpr':
            return n['name']
        if n['kind'] in ('UnresolvedMemberExpr', 'CXXDependentScopeMemberExpr', 'UnresolvedLookupExpr', 'DependentScopeDeclRefExpr'):
            t = re.sub(r'^this->', '', re.sub(r'\s+', '', self.A.src_text(n)))
            if re.match(r'^\w+$', t) and t in self.types and t in self._declared:
                return t
        return None

    def lvalue_name(self, n):
        n = strip(n)
        if n['kind'] == 'DeclRefExpr':
            return n['referencedDecl']['name']
        if self.member_name(n) is not None:
            return self.member_name(n)
        if n['kind'] == 'MemberExpr' and kids(n) and kids(n)[0]['kind'] == 'CXXThisExpr':
            return n['name']
        raise TranslationError('unsupported lvalue %s in %s' % (n['kind'], self.name))

    def int_free_vars(self, n):
        """integer-typed locals/params (not members) referenced in n, in order."""
        out = []
        for x in walk_expr(n):
            if x['kind'] == 'DeclRefExpr' and isinstance(x.get('referencedDecl'), dict):
                nm = x['referencedDecl']['name']
                if self.types.get(nm) == 'Z' and nm not in out:
                    out.append(nm)
        return out

    def oracle(self, n):
        self.uses_orc = True
        txt = self.A.src_text(n)
        self.oracles.append(re.sub(r'\s+', ' ', txt.strip()))
        fv = self.int_free_vars(n)
        # optionally, an oracle inside a loop also sees the loop counters: a float test on state that changes from one
        # iteration to the next must not be modelled by one constant boolean
        for v in getattr(self, 'oracle_ivs', []):
            if v not in fv and v in self.types:
                fv = fv + [v]
        return '(orc %s [%s])' % (coq_string(txt), '; '.join(self.cur(v) for v in fv))

    def int_like(self, n):
        """n is an integer/boolean expression over tracked integers, literals and mapped dimension calls."""
        n = strip(n)
        k = n['kind']
        if self.mapped(n) is not None:
            return True
        if k in ('IntegerLiteral', 'CXXBoolLiteralExpr'):
            return True
        if k == 'DeclRefExpr':
            rd = n.get('referencedDecl') or {}
            if rd.get('kind') == 'EnumConstantDecl':
                return True
            return self.types.get(rd.get('name')) in ('Z', 'bool')
        if self.member_name(n) is not None:
            return self.types.get(self.member_name(n)) in ('Z', 'bool')
        if k == 'MemberExpr':
            return False
        if k in ('ImplicitCastExpr', 'CStyleCastExpr', 'CXXStaticCastExpr', 'CXXFunctionalCastExpr'):
            if n.get('castKind') in ('IntegralCast', 'LValueToRValue', 'NoOp', 'IntegralToBoolean') or is_dependent(n):
                return (is_int_type(qual(n)) or is_enum(qual(n)) or is_dependent(n)) and self.int_like(kids(n)[-1])
            return False
        if k == 'BinaryOperator':
            return n['opcode'] in ('+', '-', '*', '/', '%', '<', '<=', '>', '>=', '==', '!=', '&&', '||', '&', '|', '^', '<<', '>>') \
                and all(self.int_like(c) for c in kids(n))
        if k == 'UnaryOperator':
            return n['opcode'] in ('-', '+', '!') and self.int_like(kids(n)[0])
        if k == 'ConditionalOperator':
            return all(self.int_like(c) for c in kids(n))
        if k == 'CallExpr':
            callee = strip_casts(kids(n)[0])
            nm = (callee.get('referencedDecl') or {}).get('name') if isinstance(callee.get('referencedDecl'), dict) else callee.get('name')
            if nm in ('min', 'max') or nm in self.calls:
                return all(self.int_like(c) for c in kids(n)[1:])
            return False
        if k == 'CXXOperatorCallExpr':
            ks = kids(n)
            callee = strip_casts(ks[0])
            if (callee.get('referencedDecl') or {}).get('name') == 'operator[]':
                try:
                    v = self.lvalue_name(strip_casts(ks[1]))
                except TranslationError:
                    return False
                return self.types.get(v) == 'list Z' and self.int_like(ks[2])
        return False

    def cond(self, n):
        """boolean expression"""
        n = strip(n)
        k = n['kind']
        if k == 'BinaryOperator' and n['opcode'] in ('&&', '||'):
            a, b = kids(n)
            if self.int_like(a) or self.int_like(b):
                return '(%s %s %s)' % (self.cond(a), n['opcode'], self.cond(b))
        if not self.int_like(n):
            return self.oracle(n)
        if k in ('ImplicitCastExpr', 'CStyleCastExpr', 'CXXStaticCastExpr', 'CXXFunctionalCastExpr'):
            if n.get('castKind') == 'IntegralToBoolean':
                return '(negb (%s =? 0))' % self.expr(kids(n)[-1])
            return self.cond(kids(n)[-1])
        if k == 'BinaryOperator':
            op = n['opcode']
            a, b = kids(n)
            if op in ('<', '<=', '>', '>=', '==', '!='):
                x, y = self.expr(a), self.expr(b)
                m = {'<': '(%s <? %s)', '<=': '(%s <=? %s)', '>': '(%s >? %s)', '>=': '(%s >=? %s)',
                     '==': '(%s =? %s)', '!=': '(negb (%s =? %s))'}[op]
                return m % (x, y)
            return '(negb (%s =? 0))' % self.expr(n)
        if k == 'UnaryOperator' and n['opcode'] == '!':
            return '(negb %s)' % self.cond(kids(n)[0])
        if k == 'CXXBoolLiteralExpr':
            return 'true' if n.get('value') else 'false'
        if k in ('DeclRefExpr', 'MemberExpr') or self.member_name(n) is not None:
            nm = self.lvalue_name(n)
            if self.types.get(nm) == 'bool':
                return self.cur(nm)
            return '(negb (%s =? 0))' % self.expr(n)
        if k == 'ConditionalOperator':
            c, a, b = kids(n)
            return '(if %s then %s else %s)' % (self.cond(c), self.cond(a), self.cond(b))
        return '(negb (%s =? 0))' % self.expr(n)

    def mapped(self, n):
        if not self.dep_calls or n.get('kind') not in ('CallExpr', 'CXXMemberCallExpr', 'CXXDependentScopeMemberExpr', 'MemberExpr'):
            return None
        txt = re.sub(r'\s+', '', self.A.src_text(n))
        if callable(self.dep_calls):
            v = self.dep_calls(txt)
        else:
            v = self.dep_calls.get(txt)
        if v is not None and v not in self.types:
            self.types[v] = 'Z'
            self.ver[v] = 0
            self._declared.add(v)
            self.auto_params.append(v)
        return v

    def walk_unmapped(self, n):
        if self.mapped(n) is not None:
            return
        yield n
        for c in kids(n):
            yield from self.walk_unmapped(c)

    def _mentions_dependent(self, n):
        for x in self.walk_unmapped(n):
            if is_dependent(x):
                return True
            q = qual(x)
            if any(f in q for f in ('float', 'double', 'Scalar', 'complex')) and not is_int_type(q):
                return True
        return False

    def expr(self, n):
        """integer expression -> Gallina Z term"""
        n = strip(n)
        k = n['kind']
        mv = self.mapped(n)
        if mv is not None:
            return self.cur(mv)
        if k in ('ImplicitCastExpr', 'CStyleCastExpr', 'CXXStaticCastExpr', 'CXXFunctionalCastExpr'):
            inner = kids(n)[-1]
            ck = n.get('castKind')
            if ck == 'IntegralCast':
                src_t, dst_t = canon(qual(inner)), canon(qual(n))
                e = self.expr(inner)
                if dst_t in WIDTH and dst_t.startswith('unsigned'):
                    return wrap(dst_t, e)
                # unsigned -> signed of same/larger width: value-preserving below 2^(w-1);
                # recorded as a range obligation by the proofs (values here are < 2^63).
                return e
            if ck in ('LValueToRValue', 'NoOp', 'FunctionToPointerDecay', 'ConstructorConversion', 'UserDefinedConversion'):
                return self.expr(inner)
            if ck == 'IntegralToBoolean':
                return self.expr(inner)
            raise TranslationError('unsupported cast %s in %s' % (ck, self.name))
        if k == 'IntegerLiteral':
            return str(n['value'])
        if k == 'CXXBoolLiteralExpr':
            return '1' if n.get('value') else '0'
        if k == 'DeclRefExpr':
            rd = n['referencedDecl']
            if rd.get('kind') == 'EnumConstantDecl':
                return self.enum_value(rd['name'], qual(n))
            nm = rd['name']
            if nm not in self.types:
                raise TranslationError('reference to non-local `%s` in %s (purity violated)' % (nm, self.name))
            if self.types[nm] != 'Z':
                raise TranslationError('`%s` used as integer in %s' % (nm, self.name))
            return self.cur(nm)
        if self.member_name(n) is not None and k != 'MemberExpr':
            return self.cur(self.member_name(n))
        if k == 'MemberExpr':
            if kids(n) and kids(n)[0]['kind'] == 'CXXThisExpr':
                nm = n['name']
                if nm in self.types and self.types[nm] == 'Z':
                    return self.cur(nm)
                raise TranslationError('member `%s` is not an integer parameter of %s' % (nm, self.name))
            raise TranslationError('unsupported member access in %s' % self.name)
        if k == 'BinaryOperator':
            op = n['opcode']
            a, b = kids(n)
            t = qual(n)
            if op in ('<', '<=', '>', '>=', '==', '!=', '&&', '||'):
                return '(if %s then 1 else 0)' % self.cond(n)
            x, y = self.expr(a), self.expr(b)
            m = {'*': '%s * %s', '+': '%s + %s', '-': '%s - %s', '&': 'Z.land %s %s', '|': 'Z.lor %s %s',
                 '^': 'Z.lxor %s %s', '>>': 'Z.shiftr %s %s', '<<': 'Z.shiftl %s %s',
                 '/': 'Z.quot %s %s', '%': 'Z.rem %s %s'}
            if op not in m:
                raise TranslationError('unsupported operator %s in %s' % (op, self.name))
            return wrap(t, '(' + m[op] % (x, y) + ')')
        if k == 'UnaryOperator':
            op = n['opcode']
            if op == '-':
                return wrap(qual(n), '(- %s)' % self.expr(kids(n)[0]))
            if op == '+':
                return self.expr(kids(n)[0])
            raise TranslationError('unsupported unary %s in expression of %s' % (op, self.name))
        if k == 'ConditionalOperator':
            c, a, b = kids(n)
            return '(if %s then %s else %s)' % (self.cond(c), self.expr(a), self.expr(b))
        if k == 'CallExpr':
            callee = strip_casts(kids(n)[0])
            nm = callee.get('referencedDecl', {}).get('name') if isinstance(callee.get('referencedDecl'), dict) else callee.get('name')
            args = kids(n)[1:]
            if nm in ('min', 'max') and len(args) == 2:
                return '(Z.%s %s %s)' % (nm, self.expr(args[0]), self.expr(args[1]))
            if nm in self.calls:
                return '(%s %s)' % (self.calls[nm], ' '.join(self.expr(a) for a in args))
            if nm in self.enums.get('__calls__', {}):
                return '(%s %s)' % (self.enums['__calls__'][nm], ' '.join(self.expr(a) for a in args))
            raise TranslationError('unsupported call to `%s` in %s' % (nm, self.name))
        if k == 'CXXOperatorCallExpr':
            ks = kids(n)
            callee = strip_casts(ks[0])
            nm = callee.get('referencedDecl', {}).get('name', '')
            if nm == 'operator[]':
                v = self.lvalue_name(strip_casts(ks[1]))
                if self.types.get(v) == 'list Z':
                    return '(nth (Z.to_nat %s) %s 0)' % (self.expr(ks[2]), self.cur(v))
            raise TranslationError('unsupported operator call %s in %s' % (nm, self.name))
        raise TranslationError('unsupported expression %s in %s' % (k, self.name))

    def enum_value(self, name, q):
        tab = self.enums.get('__values__', {})
        if name in tab:
            return str(tab[name])
        raise TranslationError('unknown enumerator %s' % name)

    # -------------------------------------------------------------- statements
    def terminates(self, s):
        s = strip(s)
        k = s['kind']
        if k in ('ReturnStmt', 'CXXThrowExpr', 'BreakStmt', 'ContinueStmt'):
            return True
        if k == 'CompoundStmt':
            ss = kids(s)
            return bool(ss) and self.terminates(ss[-1])
        if k == 'IfStmt':
            ks = kids(s)
            return len(ks) == 3 and self.terminates(ks[1]) and self.terminates(ks[2])
        return False

    def assigned(self, ss):
        out = []
        for s in ss:
            s = strip(s)
            k = s['kind']
            if k in ('BinaryOperator', 'CompoundAssignOperator') and s.get('opcode', '').endswith('=') and s['opcode'] not in ('==', '!=', '<=', '>='):
                tgt = strip(kids(s)[0])
                if tgt['kind'] in ('DeclRefExpr', 'MemberExpr') or self.member_name(tgt) is not None:
                    try:
                        out.append(self.lvalue_name(tgt))
                    except TranslationError:
                        pass
                elif tgt['kind'] == 'CXXOperatorCallExpr':
                    out.append(self.lvalue_name(strip_casts(kids(tgt)[1])))
            elif k == 'UnaryOperator' and s['opcode'] in ('++', '--'):
                try:
                    out.append(self.lvalue_name(kids(s)[0]))
                except TranslationError:
                    pass
            elif k == 'CompoundStmt':
                out += self.assigned(kids(s))
            elif k == 'IfStmt':
                out += self.assigned(kids(s)[1:])
            elif k == 'ForStmt':
                fp = for_parts(s)
                out += self.assigned([x for x in (fp[0], fp[3]) if x is not None and x['kind'] != 'DeclStmt'])
            elif k == 'WhileStmt':
                out += self.assigned(kids(s)[1:])
            elif k == 'CXXOperatorCallExpr':
                callee = strip_casts(kids(s)[0]).get('referencedDecl', {}).get('name', '')
                if callee == 'operator=':
                    tgt = strip(kids(s)[1])
                    if tgt['kind'] == 'CXXOperatorCallExpr':
                        out.append(self.lvalue_name(strip_casts(kids(tgt)[1])))
        if self.byref_calls:
            for st in ss:
                for x in walk_expr(st):
                    if x['kind'] in ('CallExpr', 'CXXMemberCallExpr') and kids(x):
                        nm_ = re.sub(r'^this->', '', re.sub(r'\s+', '', self.A.src_text(kids(x)[0])))
                        if nm_ in self.byref_calls:
                            out.append(self.byref_calls[nm_][2])
        if self.world and any(self.has_world_call(x) for x in ss):
            out.append('wld')
        # only variables we track
        return [v for v in dict.fromkeys(out) if self.types.get(v) in ('Z', 'list Z', 'bool', 'Wst')]

    def opaque_call(self, n):
        """a call whose effect is outside the integer model (member functions, Eigen expressions)"""
        n = strip(n)
        if n['kind'] not in ('CallExpr', 'CXXMemberCallExpr'):
            return None
        if self.mapped(n) is not None or self.int_like(n):
            return None
        callee = kids(n)[0]
        name = re.sub(r'\s+', '', self.A.src_text(callee))
        name = re.sub(r'^this->', '', name)
        if name in self.byref_calls:
            return None
        args = [a for a in kids(n)[1:] if self.int_like(a)]
        return name, args

    def has_world_call(self, n):
        for x in walk_expr(n):
            if x['kind'] in ('CallExpr', 'CXXMemberCallExpr') and self.opaque_call(x) is not None:
                return True
        return False

    def world_call(self, n, result_var, nxt):
        name, args = self.opaque_call(n)
        self.world_calls.append(name)
        a = '; '.join(self.expr(x) for x in args)
        w0 = self.cur('wld')
        w1 = self.fresh('wld')
        r = self.fresh(result_var) if result_var else '_'
        return ('match W %s [%s] %s with\n| Throw e_ m_ => Throw e_ m_\n| Ok (%s, %s) =>\n%s\nend'
                % (coq_string(name), a, w0, w1, r, nxt()))

    def tup(self, xs):
        if not xs:
            return 'tt'
        return xs[0] if len(xs) == 1 else '(' + ', '.join(xs) + ')'

    def pat(self, xs):
        if not xs:
            return '_'
        return xs[0] if len(xs) == 1 else "'(" + ', '.join(xs) + ')'

    def block(self, ss, k):
        """term for: run statements ss then continuation k() (a thunk producing a term)."""
        if not ss:
            return k()
        s, rest = strip(ss[0]), ss[1:]
        kind = s['kind']
        nxt = lambda: self.block(rest, k)
        if kind == 'CompoundStmt':
            return self.block(kids(s) + rest, k)
        if kind == 'NullStmt':
            return nxt()
        if kind == 'DoStmt':
            # only the inert expansion `do { } while (0)` of a disabled hook macro is accepted
            ks = kids(s)
            if ks and ks[0]['kind'] == 'CompoundStmt' and not kids(ks[0]):
                return nxt()
            raise TranslationError('unsupported do-while loop in %s' % self.name)
        if kind == 'DeclStmt':
            out = []
            for d in kids(s):
                if d['kind'] in ('UsingDecl', 'TypeAliasDecl', 'TypedefDecl', 'StaticAssertDecl', 'UsingDirectiveDecl'):
                    continue
                if d['kind'] != 'VarDecl':
                    raise TranslationError('unsupported declaration %s in %s' % (d['kind'], self.name))
                nm = d['name']
                if d.get('storageClass') == 'static':
                    raise TranslationError('static local `%s` in %s (purity violated)' % (nm, self.name))
                vt = self.vtype(d)
                if nm in self.skip_locals:
                    vt = 'opaque'
                self.types[nm] = vt
                init = [c for c in kids(d) if 'Expr' in c['kind'] or c['kind'] in ('IntegerLiteral', 'BinaryOperator', 'UnaryOperator', 'ConditionalOperator')]
                if vt == 'Z':
                    if not init:
                        out.append('let %s := 0 (* uninitialised *) in' % self.fresh_decl(nm))
                    else:
                        e = self.expr(init[0])
                        out.append('let %s := %s in' % (self.fresh_decl(nm), wrap(qual(d), e)))
                elif vt == 'bool':
                    e = self.cond(init[0]) if init else 'false'
                    out.append('let %s := %s in' % (self.fresh_decl(nm), e))
                elif vt == 'list Z':
                    out.append('let %s := %s in' % (self.fresh_decl(nm), self.vec_init(d, init)))
                # opaque locals (floats, matrices) are not tracked
            return '\n'.join(out + [nxt()])
        if kind in ('BinaryOperator', 'CompoundAssignOperator') and s['opcode'].endswith('=') and s['opcode'] not in ('==', '!=', '<=', '>='):
            tgt = strip(kids(s)[0])
            if tgt['kind'] == 'CXXOperatorCallExpr':       # v[e] = x
                return self.vec_store(tgt, kids(s)[1], s, nxt)
            if tgt['kind'] not in ('DeclRefExpr', 'MemberExpr') and self.member_name(tgt) is None:
                return nxt()                              # float/matrix statement: outside the integer model
            if tgt['kind'] == 'MemberExpr' and not (kids(tgt) and kids(tgt)[0]['kind'] == 'CXXThisExpr'):
                return nxt()
            nm = self.lvalue_name(tgt)
            if self.types.get(nm) not in ('Z', 'bool'):
                return nxt()
            if self.world and self.types[nm] == 'Z' and s['opcode'] == '=' and self.opaque_call(kids(s)[1]) is not None:
                return self.world_call(kids(s)[1], nm, nxt)
            if self.types[nm] == 'Z' and not self.int_like(kids(s)[1]):
                raise TranslationError('integer `%s` assigned from a non-integer expression `%s` in %s' % (nm, self.A.src_text(kids(s)[1]), self.name))
            if self.types[nm] == 'bool':
                e = self.cond(kids(s)[1])
                return 'let %s := %s in\n%s' % (self.fresh(nm), e, nxt())
            rhs = self.expr(kids(s)[1])
            t = qual(s)
            if s['opcode'] == '=':
                e = rhs
            else:
                op = s['opcode'][:-1]
                c = self.cur(nm)
                e = {'+': '%s + %s', '-': '%s - %s', '*': '%s * %s', '&': 'Z.land %s %s', '|': 'Z.lor %s %s',
                     '/': 'Z.quot %s %s', '%': 'Z.rem %s %s', '>>': 'Z.shiftr %s %s', '<<': 'Z.shiftl %s %s'}[op] % (c, rhs)
                e = '(' + e + ')'
            return 'let %s := %s in\n%s' % (self.fresh(nm), wrap(t, e), nxt())
        if kind == 'UnaryOperator' and s['opcode'] in ('++', '--'):
            tgt = strip(kids(s)[0])
            if tgt['kind'] not in ('DeclRefExpr', 'MemberExpr') and self.member_name(tgt) is None:
                return nxt()
            if tgt['kind'] == 'MemberExpr' and not (kids(tgt) and kids(tgt)[0]['kind'] == 'CXXThisExpr'):
                return nxt()
            nm = self.lvalue_name(tgt)
            if self.types.get(nm) != 'Z':
                return nxt()
            c = self.cur(nm)
            e = '(%s %s 1)' % (c, '+' if s['opcode'] == '++' else '-')
            return 'let %s := %s in\n%s' % (self.fresh(nm), wrap(qual(s), e), nxt())
        if kind == 'IfStmt':
            ks = kids(s)
            c = self.cond(ks[0])
            thn = [ks[1]]
            els = [ks[2]] if len(ks) > 2 else []
            t_term = self.terminates(ks[1])
            e_term = bool(els) and self.terminates(ks[2])
            if t_term or e_term:
                saved = dict(self.ver)
                if t_term and e_term:
                    tt = self.block(thn, lambda: 'tt')
                    self.ver = dict(saved)
                    ee = self.block(els, lambda: 'tt')
                    return '(if %s then\n%s\nelse\n%s)' % (c, tt, ee)
                if t_term:
                    tt = self.block(thn, lambda: 'tt')
                    self.ver = dict(saved)
                    ee = self.block(els + rest, k)
                    return '(if %s then\n%s\nelse\n%s)' % (c, tt, ee)
                ee = self.block(els, lambda: 'tt')
                self.ver = dict(saved)
                tt = self.block(thn + rest, k)
                return '(if %s then\n%s\nelse\n%s)' % (c, tt, ee)
            names = self.assigned(thn + els)
            saved = dict(self.ver)
            eff = self.world and any(self.has_world_call(x) for x in thn + els)
            okw = (lambda t: '(Ok %s)' % t) if eff else (lambda t: t)
            tt = self.block(thn, lambda: okw(self.tup([self.cur(x) for x in names])))
            after_t = dict(self.ver)
            self.ver = dict(saved)
            ee = self.block(els, lambda: okw(self.tup([self.cur(x) for x in names])))
            self.ver = {x: max(after_t.get(x, 0), self.ver.get(x, 0)) for x in set(after_t) | set(self.ver)}
            if not names:
                return nxt()
            news = [self.fresh(x) for x in names]
            if eff:
                return ('match (if %s then\n%s\n  else\n%s) with\n| Throw e_ m_ => Throw e_ m_\n| Ok %s =>\n%s\nend'
                        % (c, tt, ee, self.tup(news) if len(news) > 1 else news[0], nxt()))
            return 'let %s :=\n  (if %s then\n%s\n  else\n%s) in\n%s' % (self.pat(news), c, tt, ee, nxt())
        if kind == 'ForStmt':
            return self.for_loop(s, nxt)
        if kind == 'WhileStmt':
            return self.while_loop(s, nxt)
        if kind == 'ReturnStmt':
            ks = kids(s)
            if not ks and self.return_is_break and self.loop_exit is not None:
                return self.loop_exit()
            if not ks:
                return self.ret('tt')
            rt = qual(ks[0])
            if is_vec_int(rt) or self.is_vec_expr(ks[0]):
                return self.ret(self.cur(self.lvalue_name(strip_casts(ks[0]))))
            if is_int_type(rt) and canon(rt) == 'bool':
                return self.ret(self.cond(ks[0]))
            if is_int_type(rt):
                return self.ret(self.expr(ks[0]))
            if self.ret_scalar:
                return self.ret(self.sexpr(ks[0]))
            return self.ret('tt (* non-integer result *)')
        if kind == 'CXXThrowExpr':
            return self.throw(s)
        if kind == 'ContinueStmt':
            if self.loop_continue is None:
                raise TranslationError('continue outside a translated loop in %s' % self.name)
            return self.loop_continue()
        if kind == 'BreakStmt':
            if self.loop_exit is None:
                raise TranslationError('break outside a translated loop in %s' % self.name)
            return self.loop_exit()
        if kind in ('CallExpr', 'CXXMemberCallExpr') and self.byref_calls:
            nm_ = re.sub(r'^this->', '', re.sub(r'\s+', '', self.A.src_text(kids(s)[0])))
            if nm_ in self.byref_calls:
                fn_, idx_, out_ = self.byref_calls[nm_]
                args_ = kids(s)[1:]
                ins_ = ' '.join(self.expr(args_[i]) for i in idx_)
                cur_ = self.cur(out_)
                return 'let %s := %s orc %s %s in\n%s' % (self.fresh(out_), fn_, ins_, cur_, nxt())
        if self.world and kind in ('CallExpr', 'CXXMemberCallExpr') and self.opaque_call(s) is not None:
            return self.world_call(s, None, nxt)
        if kind in ('CallExpr', 'CXXMemberCallExpr', 'CXXOperatorCallExpr', 'CXXDependentScopeMemberExpr',
                    'UnresolvedMemberExpr', 'CXXUnresolvedConstructExpr') or is_dependent(s):
            if kind == 'CXXOperatorCallExpr':
                callee = strip_casts(kids(s)[0]).get('referencedDecl', {}).get('name', '')
                if callee == 'operator=':
                    tgt = strip(kids(s)[1])
                    if tgt['kind'] == 'CXXOperatorCallExpr':
                        return self.vec_store(tgt, kids(s)[2], s, nxt)
            return nxt()       # effect on float/matrix state only: outside the integer model
        raise TranslationError('unsupported statement %s in %s' % (kind, self.name))

    def is_vec_expr(self, n):
        n = strip_casts(n)
        if n['kind'] == 'DeclRefExpr':
            return self.types.get(n['referencedDecl']['name']) == 'list Z'
        if n['kind'] == 'CXXConstructExpr' and kids(n):
            return self.is_vec_expr(kids(n)[0])
        return False

    def fresh_decl(self, nm):
        # a re-declared name (shadowing in a later scope) gets a new version
        if nm in self.ver or nm in self._declared:
            return self.fresh(nm)
        self._declared.add(nm)
        self.ver[nm] = 0
        return nm

    def vec_init(self, d, init):
        # std::vector<Index> ind;  |  std::vector<Index> ind_copy(ind);
        for c in kids(d):
            c = strip(c)
            if c['kind'] == 'CXXConstructExpr':
                args = kids(c)
                if not args:
                    return '[]'
                a = strip_casts(args[0])
                if len(args) == 1 and a['kind'] == 'DeclRefExpr' and self.types.get(a['referencedDecl']['name']) == 'list Z':
                    return self.cur(a['referencedDecl']['name'])
                if len(args) >= 1 and is_int_type(qual(args[0])):
                    return '(repeat 0 (Z.to_nat %s))' % self.expr(args[0])
        return '[]'

    def vec_store(self, tgt, rhs, s, nxt):
        ks = kids(tgt)
        callee = strip_casts(ks[0]).get('referencedDecl', {}).get('name', '')
        if callee != 'operator[]':
            raise TranslationError('unsupported store in %s' % self.name)
        v = self.lvalue_name(strip_casts(ks[1]))
        if self.types.get(v) != 'list Z':
            return nxt()
        idx = self.expr(ks[2])
        val = self.expr(rhs)
        c = self.cur(v)
        return 'let %s := upd %s (Z.to_nat %s) %s in\n%s' % (self.fresh(v), c, idx, val, nxt())

    def ret(self, e):
        if self.world and 'wld' not in self.result_vars:
            self.result_vars = list(self.result_vars) + ['wld']
        if self.result_vars:
            rv = [self.cur(v) for v in self.result_vars]
            e = self.tup(rv) if e.startswith('tt') else self.tup([e] + rv)
        return '(Ok %s)' % e if self.has_throw else e

    # ------------------------------------------------------ scalar expressions
    def lit(self, n):
        from fractions import Fraction
        v = n.get('value')
        fr = Fraction(v)
        self.literals.append(v)
        return '(of_lit o (Build_lit (%d) %d %s%%float))' % (fr.numerator, fr.denominator, float(v).hex())

    def sexpr(self, n):
        """floating/Scalar expression -> term over the Ops record `o`."""
        n = strip(n)
        k = n['kind']
        if self.smap:
            txt_ = re.sub(r'^this->', '', re.sub(r'\s+', '', self.A.src_text(n)))
            if txt_ in self.smap:
                return self.smap[txt_]
        if k == 'FloatingLiteral':
            return self.lit(n)
        if k in ('CXXUnresolvedConstructExpr', 'CXXFunctionalCastExpr', 'CStyleCastExpr', 'CXXStaticCastExpr', 'ImplicitCastExpr'):
            inner = strip(kids(n)[-1])
            if k == 'ImplicitCastExpr' and n.get('castKind') in ('LValueToRValue', 'NoOp'):
                return self.sexpr(inner)
            if inner['kind'] == 'FloatingLiteral':
                return self.lit(inner)
            if is_int_type(qual(inner)) or inner['kind'] == 'IntegerLiteral':
                return '(of_Z o %s)' % self.expr(inner)
            return self.sexpr(inner)
        if k == 'IntegerLiteral':
            return '(of_Z o %s)' % n['value']
        if k == 'DeclRefExpr':
            nm = n['referencedDecl']['name']
            if self.types.get(nm) == 'Scalar':
                return self.cur(nm)
            if self.types.get(nm) == 'Z':
                return '(of_Z o %s)' % self.cur(nm)
            raise TranslationError('scalar reference to untracked `%s` in %s' % (nm, self.name))
        if k == 'BinaryOperator' and n['opcode'] in ('+', '-', '*', '/'):
            a, b = kids(n)
            f = {'+': 'add', '-': 'sub', '*': 'mul', '/': 'div'}[n['opcode']]
            return '(%s o %s %s)' % (f, self.sexpr(a), self.sexpr(b))
        if k == 'UnaryOperator' and n['opcode'] == '-':
            return '(neg o %s)' % self.sexpr(kids(n)[0])
        if k == 'CallExpr':
            callee = strip_casts(kids(n)[0])
            nm = callee.get('name') or (callee.get('referencedDecl') or {}).get('name')
            args = kids(n)[1:]
            if nm in ('abs', 'sqrt') and len(args) == 1:
                return '(%s o %s)' % (nm, self.sexpr(args[0]))
        raise TranslationError('unsupported scalar expression %s in %s' % (k, self.name))

    def throw(self, s):
        # throw std::invalid_argument("msg")
        typ, msg = '?', ''
        for x in walk_expr(s):
            if x['kind'] in ('CXXConstructExpr', 'CXXTemporaryObjectExpr', 'CXXFunctionalCastExpr') and typ == '?':
                q = qual(x)
                m = re.search(r'(invalid_argument|logic_error|runtime_error|out_of_range|domain_error|length_error|range_error|overflow_error|underflow_error|bad_alloc|exception)', q)
                if m:
                    typ = m.group(1)
            if x['kind'] == 'StringLiteral' and not msg:
                msg = x.get('value', '').strip('"')
        if not msg:
            msg = re.sub(r'\s+', ' ', self.A.src_text(s))[:80]
        return '(Throw %s %s)' % (coq_string(typ), coq_string(msg))

    # ------------------------------------------------------------------ loops
    def while_loop(self, s, nxt):
        """`while (v < b && ...) { ...; v++; }` with v a tracked integer incremented as the LAST statement."""
        ks = kids(s)
        cnd, bdy = ks[0], ks[-1]
        first = strip(cnd)
        while first['kind'] == 'BinaryOperator' and first['opcode'] == '&&':
            first = strip(kids(first)[0])
        if not (first['kind'] == 'BinaryOperator' and first['opcode'] in ('<', '<=') and strip_casts(kids(first)[0])['kind'] == 'DeclRefExpr'):
            raise TranslationError('while-loop condition does not start with `v < b` in %s' % self.name)
        iv = strip_casts(kids(first)[0])['referencedDecl']['name']
        if self.types.get(iv) != 'Z':
            raise TranslationError('while-loop counter `%s` is not a tracked integer in %s' % (iv, self.name))
        body = kids(bdy) if bdy['kind'] == 'CompoundStmt' else [bdy]
        last = strip(body[-1]) if body else None
        if not (last is not None and last['kind'] == 'UnaryOperator' and last['opcode'] == '++'
                and strip(kids(last)[0]).get('referencedDecl', {}).get('name') == iv):
            raise TranslationError('while-loop does not end with `%s++` in %s' % (iv, self.name))
        fake_body = {'kind': 'CompoundStmt', 'inner': body[:-1]}
        return self.for_loop(s, nxt, parts=(iv, cnd, fake_body))

    def for_loop(self, s, nxt, parts=None):
        if parts is not None:
            iv, cnd, bdy = parts
            init, inc = None, None
            outer_iv = True
            start = self.cur(iv)
            self.fresh(iv)
        else:
            init, cnd, inc, bdy = for_parts(s)
        if parts is not None:
            pass
        elif init is None:
            raise TranslationError('for-loop without initialisation in %s' % self.name)
        elif init['kind'] == 'DeclStmt':
            outer_iv = False
            vd = [d for d in kids(init) if d['kind'] == 'VarDecl']
            if len(vd) != 1 or not is_int_type(qual(vd[0])):
                raise TranslationError('for-loop induction variable is not one integer in %s' % self.name)
            iv = vd[0]['name']
            start = self.expr(kids(vd[0])[0])
            self.types[iv] = 'Z'
            self.fresh_decl(iv)
        else:
            outer_iv = False
            i0 = strip(init)
            if not (i0['kind'] == 'BinaryOperator' and i0['opcode'] == '=' and
                    (strip(kids(i0)[0])['kind'] == 'DeclRefExpr' or self.member_name(strip(kids(i0)[0])) is not None)):
                raise TranslationError('for-loop initialisation is not `i = a` in %s' % self.name)
            iv = self.lvalue_name(kids(i0)[0])
            if self.types.get(iv) != 'Z':
                raise TranslationError('for-loop induction variable `%s` is not a tracked integer in %s' % (iv, self.name))
            start = self.expr(kids(i0)[1])
            outer_iv = True
            self.fresh(iv)
        # condition i < b / i <= b [&& more]
        cn = strip(cnd)
        first = cn
        while first['kind'] == 'BinaryOperator' and first['opcode'] == '&&':
            first = strip(kids(first)[0])
        def names_iv(n):
            n = strip_casts(n)
            return n.get('referencedDecl', {}).get('name') == iv or self.member_name(n) == iv
        if not (first['kind'] == 'BinaryOperator' and first['opcode'] in ('<', '<=') and names_iv(kids(first)[0])):
            raise TranslationError('for-loop condition not of the form i < b in %s' % self.name)
        bound_node = kids(first)[1]
        ic = strip(inc) if inc else None
        if parts is None and not (ic and ic['kind'] == 'UnaryOperator' and ic['opcode'] == '++' and names_iv(kids(ic)[0])):
            raise TranslationError('for-loop increment is not i++ in %s' % self.name)
        body_ss = [bdy]
        carried = [v for v in self.assigned(body_ss) if v != iv]
        bound_vars = [x.get('referencedDecl', {}).get('name') for x in walk_expr(bound_node) if x['kind'] == 'DeclRefExpr']
        if any(v in carried or v == iv for v in bound_vars):
            raise TranslationError('for-loop bound modified in body in %s' % self.name)
        self.check_only_incremented(bdy, iv)
        results = ([iv] if outer_iv else []) + carried       # what the loop hands back
        scope = [v for v in self.types if self.types[v] in ('Z', 'list Z', 'bool', 'Wst') and v != iv and v in self._declared]
        self.nloop += 1
        lname = '%s_loop%d' % (self.name, self.nloop)
        saved_ver = dict(self.ver)
        ivn = self.cur(iv)
        args_now = [self.cur(v) for v in scope]
        bound = self.expr(bound_node)
        fuel = '(Z.to_nat (%s - %s%s))' % (bound, start, ' + 1' if first['opcode'] == '<=' else '')
        guard = self.cond(cn)
        effectful = self.world and self.has_world_call(bdy)
        wrap_ok = (lambda t: '(Ok %s)' % t) if effectful else (lambda t: t)
        exit_now = lambda: wrap_ok(self.tup([self.cur(v) for v in results]))
        prev_exit = self.loop_exit
        self.loop_exit = exit_now
        prefix = lname + (' orc' if True else '') + (' ' if True else '')
        rec = lambda: '(%s orc fuel\' (%s + 1) %s)' % (lname, self.cur(iv), ' '.join(self.cur(v) for v in scope))
        prev_cont = self.loop_continue
        self.loop_continue = rec
        body_term = self.block(body_ss, rec)
        self.loop_exit = prev_exit
        self.loop_continue = prev_cont
        result0 = wrap_ok(self.tup([saved_ver_name(saved_ver, v) for v in results]))
        tyof = lambda v: 'Wst' if self.types[v] == 'Wst' else self.types[v]
        sig = ' '.join('(%s : %s)' % (a, tyof(v)) for a, v in zip(args_now, scope))
        rty = ' * '.join(tyof(v) for v in results) if results else 'unit'
        if effectful:
            rty = 'res (%s)' % rty
        fix = ('Fixpoint %s (orc : string -> list Z -> bool) (fuel : nat) (%s : Z) %s {struct fuel} : %s :=\n  match fuel with\n  | O => %s\n  | S fuel\' =>\n    if %s then\n%s\n    else %s\n  end.'
               % (lname, ivn, sig, rty, result0, guard, indent(body_term, 6), result0))
        self.loops.append(fix)
        self.uses_orc = True
        self.ver = dict(saved_ver)
        news = [self.fresh(v) for v in results]
        call = '%s orc %s %s %s' % (lname, fuel, start, ' '.join(args_now))
        if not results:
            return nxt()
        if effectful:
            return 'match %s with\n| Throw e_ m_ => Throw e_ m_\n| Ok %s =>\n%s\nend' % (call, self.tup(news) if len(news) > 1 else news[0], nxt())
        return 'let %s := %s in\n%s' % (self.pat(news), call, nxt())

    def check_only_incremented(self, bdy, iv):
        for x in walk_stmt(bdy):
            if x['kind'] in ('BinaryOperator', 'CompoundAssignOperator') and x.get('opcode', '').endswith('=') and x['opcode'] not in ('==', '!=', '<=', '>='):
                t = strip(kids(x)[0])
                if t.get('referencedDecl', {}).get('name') == iv:
                    if not (x['opcode'] == '+=' and strip_casts(kids(x)[1])['kind'] == 'IntegerLiteral'):
                        raise TranslationError('induction variable assigned in loop body in %s' % self.name)
            if x['kind'] == 'UnaryOperator' and x['opcode'] == '--' and strip(kids(x)[0]).get('referencedDecl', {}).get('name') == iv:
                raise TranslationError('induction variable decremented in %s' % self.name)

    # ------------------------------------------------------------------- main
    def translate_block(self, stmts, pars, result_vars, final=None):
        """Translate a list of statements of self.fn as a function of `pars`
        [(name, type)] returning the tuple of `result_vars` (or `final()`)."""
        for nm, vt in pars:
            self.types[nm] = vt
            self._declared.add(nm)
            self.ver[nm] = 0
        self.result_vars = []
        k = final or (lambda: self.ret(self.tup([self.cur(v) for v in result_vars])))
        term = self.block(stmts, k)
        sig = ' '.join('(%s : %s)' % p for p in ([(v, 'Z') for v in self.auto_params] + list(pars)))
        orc = ' (orc : string -> list Z -> bool)' if self.uses_orc else ''
        txt = '\n\n'.join(self.loops)
        if txt:
            txt += '\n\n'
        txt += 'Definition %s%s %s :=\n%s.\n' % (self.name, orc, sig, indent(term, 2))
        return txt

    def translate(self, result_type=None, ctor_inits=False):
        ps = []
        for p in params(self.fn):
            nm = p.get('name')
            if not nm:
                continue
            vt = self.vtype(p)
            if nm in self.skip_locals:
                vt = 'opaque'
            self.types[nm] = vt
            if vt in ('Z', 'list Z', 'bool'):
                ps.append((nm, vt))
                self._declared.add(nm)
                self.ver[nm] = 0
            elif 'SortRule' in qual(p):
                self.types[nm] = 'Z'
                ps.append((nm, 'Z'))
                self._declared.add(nm)
                self.ver[nm] = 0
        for m in self.member_params:
            self.types[m] = 'Z'
            self._declared.add(m)
            self.ver[m] = 0
        for (nm, vt) in self.extra_params:
            self.types[nm] = vt
            self._declared.add(nm)
            self.ver[nm] = 0
        if self.world:
            self.types['wld'] = 'Wst'
            self._declared.add('wld')
            self.ver['wld'] = 0
            self.has_throw = True
        pre = []
        if ctor_inits:
            for c in kids(self.fn):
                if c['kind'] == 'CXXCtorInitializer' and isinstance(c.get('anyInit'), dict):
                    nm = c['anyInit']['name']
                    if nm in self.member_params:
                        continue
                    if is_int_type(c['anyInit'].get('type', {}).get('desugaredQualType') or c['anyInit'].get('type', {}).get('qualType', '')):
                        try:
                            e = self.expr(kids(c)[0])
                        except TranslationError:
                            continue
                        self.types[nm] = 'Z'
                        self._declared.add(nm)
                        self.ver[nm] = 0
                        pre.append('let %s := %s in' % (nm, e))
        b = body(self.fn)
        rt = result_type
        term = self.block(kids(b), lambda: self.ret('tt'))
        allp = [(v, 'Z') for v in self.auto_params] + [(m, 'Z') for m in self.member_params] + list(self.extra_params) + ps
        if self.world:
            allp = allp + [('wld', 'Wst')]
        sig = ' '.join('(%s : %s)' % p for p in allp)
        orc = ' (orc : string -> list Z -> bool)' if self.uses_orc else ''
        if self.ret_scalar:
            orc = ' (o : Ops)' + orc
        txt = '\n\n'.join(self.loops)
        if txt:
            txt += '\n\n'
        txt += 'Definition %s%s %s :=\n%s.\n' % (self.name, orc, sig, indent('\n'.join(pre + [term]), 2))
        return txt


def saved_ver_name(ver, v):
    n = ver.get(v, 0)
    return v if n == 0 else '%s_%d' % (v, n)


def indent(s, n):
    return '\n'.join(' ' * n + l for l in s.split('\n'))


def strip_casts(n):
    while n['kind'] in ('ImplicitCastExpr', 'ParenExpr', 'ExprWithCleanups', 'MaterializeTemporaryExpr',
                        'CXXBindTemporaryExpr', 'ConstantExpr') and kids(n):
        n = kids(n)[0]
    return n


def is_enum(q):
    return re.search(r'(^|::|\s)(SortRule|CompInfo|GEigsMode)$', canon(q)) is not None


def walk_expr(n):
    yield n
    for c in kids(n):
        yield from walk_expr(c)


walk_stmt = walk_expr


def for_parts(s):
    """ForStmt inner = [init, condvar, cond, inc, body]; clang prints {} for absent parts."""
    raw = s.get('inner') or []
    parts = [(c if isinstance(c, dict) and c.get('kind') else None) for c in raw]
    while len(parts) < 5:
        parts.insert(1, None)
    init, _cv, cnd, inc, bdy = parts[0], parts[1], parts[2], parts[3], parts[4]
    return init, cnd, inc, bdy
