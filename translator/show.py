import sys, clangast as A
a=A.load()
def show(n,ind=0,maxd=30):
    if ind>maxd: return
    extra=' '.join(str(n.get(k)) for k in ('name','opcode','value','castKind','isPostfix') if n.get(k) is not None)
    rd=n.get('referencedDecl',{}).get('name','') if isinstance(n.get('referencedDecl'),dict) else ''
    t=n.get('type',{}).get('qualType','') if isinstance(n.get('type'),dict) else ''
    print('  '*ind+n.get('kind','?')+' '+extra+(' ->'+rd if rd else '')+' :'+t)
    for c in A.kids(n): show(c,ind+1,maxd)
cls,meth=sys.argv[1],sys.argv[2]
idx=int(sys.argv[3]) if len(sys.argv)>3 else 0
if cls=='-': show(a.functions(meth)[idx])
else: show(a.method(cls,meth,idx))
