import clangast as A, cxx2v as X
a=A.load()
c=a.method('SimpleRandom','SimpleRandom')
f=X.Fn(a,c,'seed_norm',extra_params=[('m_rand','Z')]); f.result_vars=['m_rand']; print(f.translate())
r=a.class_specs('RandomScalar')[0]
f=X.Fn(a,a.methods(r,'run')[0],'random_real'); f.result_vars=['seed']; f.ret_scalar=True; f.calls={'next_long_rand':'next_long_rand'}; print(f.translate()); print(f.literals)
