import clangast as A, cxx2v as X, gen
a=A.load()
ev=dict(gen.enum_values(a,'SortRule')); ev.update(dict(gen.enum_values(a,'CompInfo')))
f=X.Fn(a,a.method('Arnoldi','expand_basis'),'expand_basis_count',); f.return_is_break=True; f.result_vars=['op_counter']
print(f.translate())
f=X.Fn(a,a.method('Arnoldi','factorize_from'),'arnoldi_factorize_from',member_params=['m_k','m_m','m_n'],); f.world=True; f.has_throw=True; f.result_vars=['m_k','op_counter']
f.byref_calls={'expand_basis':('expand_basis_count',[1],'op_counter')}
print(f.translate()); print(f.world_calls)
f=X.Fn(a,a.method('GenEigsBase','restart'),'gen_restart',member_params=['m_ncv','m_nmatop']); f.world=True
print(f.translate()); print(f.world_calls)
